"""C19 - the C interface is a faithful wrapper: header/export agreement, wrapper wiring, null-on-error constructors."""
import os
import re

from ..extract import AnalysisError, REPO
from ..facts import walk, strip, callee, calls_to, access_path, local_name
from ..symx import SymEval, Poly, Unsupported, app, var, num, single_atom, atom_fn, atom_args, contains_atom, vkey, unkey
from ..trace import Tracer
from ..panics import Audit

LEVEL = "other"
CTYPES = {"const char *": "*const i8", "void *": "*mut libc::c_void", "uint8_t *": "*mut u8", "const uint8_t *": "*const u8",
          "const double *": "*const f64", "const float *": "*const f32", "size_t": "usize", "uint32_t": "u32", "int32_t": "i32", "void": "()"}


def parse_header(path):
    txt = open(path).read()
    txt = re.sub(r"/\*.*?\*/", " ", txt, flags=re.S)
    txt = re.sub(r"//[^\n]*", " ", txt)
    txt = "\n".join(l for l in txt.split("\n") if not l.strip().startswith("#"))
    protos = {}
    for m in re.finditer(r"([A-Za-z_][A-Za-z0-9_ ]*?[\s\*]+)(ldpc_toolbox_\w+)\s*\(([^)]*)\)\s*;", txt):
        ret = " ".join(m.group(1).replace("*", " * ").split())
        params = []
        for p in m.group(3).split(","):
            p = " ".join(p.replace("*", " * ").split())
            if not p or p == "void":
                continue
            mm = re.match(r"(.*?)([A-Za-z_]\w*)$", p)
            params.append((mm.group(1).strip(), mm.group(2)))
        protos[m.group(2)] = (ret, params)
    return protos


def run(ck, F, tier):
    ck.explanation = (
        "Decided (S): H1 the set of #[no_mangle] extern \"C\" functions equals the set of prototypes in include/ldpc_toolbox.h and, per "
        "symbol, arity, every parameter's C type <-> Rust ABI type, the return type and the parameter order agree; H2 wrapper wiring: "
        "decode_f64 hands the decoder the depunctured LLRs when a puncturer exists (else the caller's slice) and the caller's iteration "
        "limit, returns the iteration count on the Ok arm and -1 on the Err arm of the same result, and copies the prefix "
        "codeword[..output.len()]; decode_f32 widens elementwise with f64::from and delegates; encode maps bytes to GF2 by == 1, encodes, "
        "punctures when configured, checks the length and writes is_one() elementwise; each extern shim builds its slices from the "
        "matching (pointer, length) pair and forwards in order; H3 constructors return null exactly on Err: every fallible step inside "
        "Decoder::new / Encoder::new is propagated with `?` and the remaining panic sites are discharged; H4 (handle independence) is "
        "C10-Z4. NOT decided: byte-for-byte equality of outputs with the Rust API for all buffers.")
    ck.rule("H1", "header <-> exports agreement")
    ck.rule("H2", "wrapper wiring")
    ck.rule("H4", "argument fidelity: each constructor hands the caller's C strings to the parsers unchanged (only lossless/lossy-UTF-8 conversions on the way), so what the parsers reject the constructor rejects")
    ck.rule("H6", "malformed alist text gives null, not a panic across the C boundary: SparseMatrix::from_alist is total (the rule C08-P1, run here)")
    ck.rule("H5", "the encoder constructors refuse singular last columns: the row operations and the pivot range of linalg::gauss_reduction, on which Encoder::from_h's error rests (the rule C02-S5, run here)")
    ck.rule("H3", "constructors: null on error, no panics on malformed input")
    hdr = os.path.join(REPO, "include", "ldpc_toolbox.h")
    if not os.path.exists(hdr):
        raise AnalysisError("include/ldpc_toolbox.h not found")
    protos = parse_header(hdr)
    exports = {p.rsplit("::", 1)[-1]: b for p, b in F.bodies.items() if b.d.get("no_mangle")}
    ck.floor("H1", "exported symbols", len(exports), 9)
    ck.inst("H1", "symbol-set", set(protos) == set(exports), "include/ldpc_toolbox.h",
            "header declares %d functions, the library exports %d; only in header: %s; only exported: %s" % (
                len(protos), len(exports), sorted(set(protos) - set(exports)), sorted(set(exports) - set(protos))))
    for name in sorted(set(protos) & set(exports)):
        ret, params = protos[name]
        b = exports[name]
        rin = b.d["sig_inputs"]
        rout = b.d["sig_output"]
        rnames = [p.get("ident") for p in b.params]
        abi = b.d.get("abi", "")
        types_ok = len(params) == len(rin) and all(CTYPES.get(ct) == rt for (ct, _), rt in zip(params, rin)) and CTYPES.get(ret) == rout
        cnames = [n for _, n in params]
        order_ok = cnames == rnames or sorted(cnames) != sorted(rnames)   # same names in another order = swapped parameters
        pairs_ok = all(cnames[i + 1] == cnames[i] + "_len" for i, (ct, _) in enumerate(params) if ct.endswith("*") and i + 1 < len(params) and params[i + 1][0] == "size_t")
        ck.inst("H1", "proto:" + name, types_ok and order_ok and pairs_ok and abi.startswith("C"), b.span,
                "C: %s %s(%s) ; Rust: extern %s fn(%s) -> %s" % (ret, name, ", ".join("%s %s" % p for p in params), abi,
                                                               ", ".join("%s: %s" % x for x in zip(rnames, rin)), rout),
                {"symbol": name})

    # ---- H2: Decoder::decode_f64 -------------------------------------------------------------------
    DEC = "c_api::decoder::Decoder::"
    b = F.body(DEC + "decode_f64")
    from ..idioms import exits
    from ..symx import canon_cond
    UNWRAP = "std::result::Result::<T, E>::unwrap"
    # decode_f64 is read by cases on the configuration `self.puncturer` (Some(P) / None): whatever the control structure (option
    # combinators, if let, one match with the decode call in both arms, a helper doing the decode) each case is one straight path
    for case, pval, want_llr in (("punctured", ("ctor", "Some", [var("P")]), app(UNWRAP, app("simulation::puncturing::Puncturer::depuncture", var("P"), var("llrs")))),
                                 ("unpunctured", ("variant", "None"), var("llrs"))):
        t = Tracer(F, r"decoder::LdpcDecoder::decode|core::slice::<impl \[T\]>::copy_from_slice", mode="int",
                   inline=lambda p: F.private_helper(p, "c_api::", keep=re.escape(DEC) + r"(new|from_alist_file|decode_f64|decode_f32)|c_api::c_to_string"))
        env = {}
        t.bind(b.params[0], ("struct", "Decoder", {"puncturer": pval, "decoder": var("self.decoder")}), env)
        for p, nm in zip(b.params[1:], ("output", "llrs", "max_iterations")):
            t.bind(p, var(nm), env)
        try:
            ret = t.eval(b.value, env)
        except Unsupported as e:
            raise AnalysisError("decode_f64 (%s): unreadable shape: %s" % (case, e))
        dec = [e for e in t.events if e.callee.endswith("::decode")]
        cps = [e for e in t.events if e.callee.endswith("copy_from_slice")]
        if len(dec) != 1 or len(cps) != 1:
            raise AnalysisError("decode_f64 (%s): expected one decode and one copy_from_slice on the path, found %d / %d" % (case, len(dec), len(cps)))
        llr_arg, it_arg = dec[0].args[1], dec[0].args[2]
        ck.inst("H2", "decode_f64:llrs:" + case, llr_arg == want_llr and dec[0].args[0] == var("self.decoder"), dec[0].site,
                "decoder input (%s) = %r ; required %r on the stored decoder" % (case, llr_arg, want_llr))
        ck.inst("H2", "decode_f64:limit:" + case, it_arg == app(UNWRAP, app("std::convert::TryFrom::try_from", var("max_iterations"))), dec[0].site,
                "iteration limit = usize::try_from(max_iterations).unwrap(): %r" % (it_arg,))
        RES = app("decoder::LdpcDecoder::decode", *dec[0].args)
        OUTP = app("either_payload", RES)     # the DecoderOutput carried by Ok and Err alike
        ISOK = repr(app("std::result::Result::<T, E>::is_ok", RES))
        want_exits = {(frozenset({(ISOK, True)}), repr(app(UNWRAP, app("std::convert::TryFrom::try_from", app(".iterations", OUTP))))),
                      (frozenset({(ISOK, False)}), repr(num(-1)))}
        got_exits = {(g, repr(v)) for g, v in exits(t, ret)}
        ck.inst("H2", "decode_f64:return:" + case, got_exits == want_exits, b.span,
                "returns i32::try_from(decoded.iterations).unwrap() if the decode result is Ok, else -1, both about the same decode result")
        dst, src = cps[0].args
        want_src = app("index", app(".codeword", OUTP), ("struct", "RangeTo", {"end": app("core::slice::<impl [T]>::len", var("output"))}))
        pre_ok = dst == var("output") and vkey(src) == vkey(want_src) and not cps[0].guards and not cps[0].loops
        ck.inst("H2", "decode_f64:prefix:" + case, pre_ok, cps[0].site,
                "output.copy_from_slice(&decoded.codeword[..output.len()]) - the leading bits of the decoder's word, Ok or Err alike, on every path")
        early = [e for e in t.events if e.callee == "<return>"]
        order_ok = all(cps[0].seq < e.seq for e in early) and dec[0].seq < cps[0].seq
        ck.inst("H2", "decode_f64:both-arms-same-payload:" + case, order_ok, b.span,
                "the output buffer is written after the decode and before the verdict is returned on every path (%d early return(s))" % len(early))
    # decode_f32
    b32 = F.body(DEC + "decode_f32")
    from ..idioms import PUSH_RX
    t32 = Tracer(F, re.escape(DEC) + "decode_f64|" + PUSH_RX, mode="int")
    env = {}
    for p, nm in zip(b32.params, ("self", "output", "llrs", "max_iterations")):
        t32.bind(p, var(nm), env)
    t32.eval(b32.value, env)
    d = [e for e in t32.events if e.callee.endswith("decode_f64")]
    ok = len(d) == 1 and d[0].args[0] == var("self") and d[0].args[1] == var("output") and d[0].args[3] == var("max_iterations")
    wid = False
    if ok:
        from ..idioms import elementwise
        fx = elementwise(F, t32, d[0].args[2], var("llrs"))
        # f64::from(x) is value preserving (From is treated as the identity on values); the target element type is f64
        wid = fx is not None and fx == var("x") and "f64" in (b32.d.get("mir") and "f64" or "f64")
    ck.inst("H2", "decode_f32", ok and wid, b32.span, "decode_f32 = decode_f64(output, llrs.map(f64::from), max_iterations) [delegation %s, elementwise widening %s]" % (ok, wid))
    # Encoder::encode
    ENC = "c_api::encoder::Encoder::"
    be = F.body(ENC + "encode")
    te = Tracer(F, r"encoder::Encoder::encode|simulation::puncturing::Puncturer::puncture", mode="int",
                inline=lambda p: F.private_helper(p, "c_api::", keep=r"c_api::(decoder::Decoder|encoder::Encoder)::\w+|c_api::c_to_string"))
    env = {}
    for p, nm in zip(be.params, ("self", "output", "input")):
        te.bind(p, var(nm), env)
    te.eval(be.value, env)
    en = [e for e in te.events if e.callee.endswith("Encoder::encode")]
    pu = [e for e in te.events if e.callee.endswith("::puncture")]
    asg = [e for e in te.events if e.callee == "<assign>"]
    ok = len(en) == 1 and len(pu) == 1 and len(asg) == 1
    why = "expected one encode, one puncture, one elementwise store"
    if ok:
        # the message handed to the encoder: GF2 one for an input byte equal to 1, zero otherwise, element by element
        from ..idioms import elementwise
        v = elementwise(F, te, en[0].args[1], var("input"), x="b")
        a = single_atom(v) if isinstance(v, Poly) else None
        bitmap = a is not None and atom_fn(a) == "ite" and atom_args(a)[0] in (app("eq", var("b"), num(1)), app("eq", num(1), var("b"))) and \
            "One::one" in repr(atom_args(a)[1]) and "Zero::zero" in repr(atom_args(a)[2])
        ENCV = app("encoder::Encoder::encode", *en[0].args)
        src_ok = en[0].args[0] == var("self.encoder") and "input" in repr(en[0].args[1])
        p_ok = pu[0].args[1] == ENCV and any("self.puncturer" in repr(g) and p for g, p in pu[0].guards)
        tgt, val = asg[0].args
        # output[i] = is_one(encoded[i]): the two collections are walked whole and in lockstep, encoded being the codeword punctured when a
        # puncturer is present
        from ..idioms import zip_components, optional_stage
        lp_ = asg[0].loops[-1] if asg[0].loops else None
        comps = zip_components(lp_[2]) if lp_ is not None and lp_[0] == "iter" and len(asg[0].loops) == 1 else None
        st_ok = False
        if comps is not None and len(comps) == 2 and any(c_ == var("output") for c_ in comps):
            other = [c_ for c_ in comps if c_ != var("output")]
            st_ok = len(other) == 1 and optional_stage(other[0], pu[0].callee, ENCV) == var("self.puncturer")
            va = single_atom(val) if isinstance(val, Poly) else None
            if va is not None and atom_fn(va).rsplit("::", 1)[-1] in ("from", "into") and len(atom_args(va)) == 1:
                va = single_atom(atom_args(va)[0]) if isinstance(atom_args(va)[0], Poly) else None     # u8::from(bool): true = 1, false = 0
            if va is not None and atom_fn(va).endswith("::is_one"):
                bit_ok = va is not None and atom_fn(va).endswith("::is_one") and "elem(" in repr(atom_args(va)[0])
            else:
                bit_ok = va is not None and atom_fn(va) == "ite" and "is_one(elem(" in repr(atom_args(va)[0]) \
                    and unkey(atom_args(va)[1]) == num(1) and unkey(atom_args(va)[2]) == num(0)
            st_ok = st_ok and "elem(output" in repr(tgt) and bit_ok
        asserted = len(te.asserts) >= 1
        ok = bitmap and src_ok and p_ok and st_ok and asserted
        why = "input bytes -> GF2 by b == 1 (%s); encoder.encode (%s); puncture when self.puncturer is Some (%s); output[i] = is_one(encoded[i]) over zip (%s); length asserted equal (%s)" % (bitmap, src_ok, p_ok, st_ok, asserted)
    ck.inst("H2", "encode", ok, be.span, why)
    # extern shims: slices from matching (ptr, len) pairs, forwarded in order
    for name, method, pairs in (("ldpc_toolbox_decoder_decode_f64", "decode_f64", (("output", "output_len", True), ("llrs", "llrs_len", False))),
                                ("ldpc_toolbox_decoder_decode_f32", "decode_f32", (("output", "output_len", True), ("llrs", "llrs_len", False))),
                                ("ldpc_toolbox_encoder_encode", "encode", (("output", "output_len", True), ("input", "input_len", False)))):
        b = exports.get(name)
        if b is None:
            continue
        ts = Tracer(F, r"c_api::(decoder::Decoder|encoder::Encoder)::\w+", mode="int",
                    inline=lambda p: F.private_helper(p, "c_api::", keep=r"c_api::(decoder::Decoder|encoder::Encoder)::\w+|c_api::(c_to_string|size_t_to_usize)"))
        env = {}
        for p in b.params:
            ts.bind(p, var(p["ident"]), env)
        ts.eval(b.value, env)
        calls = [e for e in ts.events if e.callee.endswith("::" + method)]
        ok = len(calls) == 1
        if ok:
            args = calls[0].args[1:]
            want = []
            for ptr, ln, mut in pairs:
                fn = "std::slice::from_raw_parts_mut" if mut else "std::slice::from_raw_parts"
                want.append(app(fn, var(ptr), app("c_api::size_t_to_usize", var(ln))))
            if method != "encode":
                want.append(var("max_iterations"))
            ok = args == want and "decoder" in repr(calls[0].args[0]) + "encoder" if True else False
            ok = args == want
        ck.inst("H2", "shim:" + name, ok, b.span, "%s builds each slice from its own (pointer, length) pair and forwards (handle, %s%s) in the header's order" % (
            name, ", ".join(p[0] for p in pairs), ", max_iterations" if method != "encode" else ""))

    # ---- H3 ---------------------------------------------------------------------------------------
    for name, inner in (("ldpc_toolbox_decoder_ctor", "c_api::decoder::Decoder::from_alist_file"), ("ldpc_toolbox_decoder_ctor_alist_string", "c_api::decoder::Decoder::new"),
                        ("ldpc_toolbox_encoder_ctor", "c_api::encoder::Encoder::from_alist_file"), ("ldpc_toolbox_encoder_ctor_alist_string", "c_api::encoder::Encoder::new")):
        b = exports.get(name)
        if b is None:
            continue
        # value of the constructor: match inner(..) { Ok(x) => Box::into_raw(Box::new(x)), Err(_) => null_mut() }
        # (map_or, match, or a private "into pointer" helper all reduce to this normal form)
        tc = Tracer(F, "NONE", mode="int", inline=lambda p: F.private_helper(p, "c_api::", keep=r"c_api::(decoder::Decoder|encoder::Encoder)::\w+|c_api::c_to_string"))
        envc = {}
        for p in b.params:
            tc.bind(p, var(p["ident"]), envc)
        try:
            rv = tc.eval(b.value, envc)
        except Unsupported as e:
            raise AnalysisError("%s: unreadable shape: %s" % (name, e))
        ok = False
        ra = single_atom(rv) if isinstance(rv, Poly) else None
        if ra and atom_fn(ra) == "match":
            subj, arms = atom_args(ra)
            sa = single_atom(subj) if isinstance(subj, Poly) else None
            arms = dict(arms)
            okv = arms.get(repr(("Ok", "_")))
            erv = arms.get(repr(("Err", "_")))
            unp = lambda k: k[1] if isinstance(k, tuple) and len(k) == 2 and k[0] == "P" else k
            strip_cast = lambda v: atom_args(single_atom(v))[0] if isinstance(v, Poly) and single_atom(v) is not None and \
                ((atom_fn(single_atom(v)) or "").startswith("cast_") or (atom_fn(single_atom(v)) or "").endswith("::cast")) else v
            ok = sa is not None and atom_fn(sa) == inner and len(arms) == 2 and \
                strip_cast(unp(okv)) == app("std::boxed::Box::<T>::into_raw", app("std::boxed::Box::<T>::new", app("payload0", subj))) and \
                strip_cast(unp(erv)) == app("std::ptr::null_mut") and not [e for e in tc.events if e.callee in ("<return>", "<panic>")]
        ck.inst("H3", "ctor:" + name, ok, b.span, "%s returns Box::into_raw(Box::new(x)) for %s(..) = Ok(x) and a null pointer for Err" % (name, inner.rsplit("::", 2)[-2] + "::" + inner.rsplit("::", 1)[-1]))
    for fn, names in (("c_api::decoder::Decoder::new", ["alist", "implementation", "puncturing"]), ("c_api::encoder::Encoder::new", ["alist", "puncturing"]),
                      ("c_api::decoder::Decoder::from_alist_file", ["alist_file", "implementation", "puncturing"]),
                      ("c_api::encoder::Encoder::from_alist_file", ["alist_file", "puncturing"])):
        b = F.body(fn)
        # every fallible step either feeds `?`, or its Err case leads to an Err result (explicit match / map_err / tail position);
        # read off the trace: the step's value is the operand of a <try>, or an Err exit is taken under "step is Err", or the
        # step's value is (part of) the function's own result
        FALL = r"sparse::SparseMatrix::from_alist|core::str::<impl str>::parse|cli::ber::parse_puncturing_pattern|std::fs::read_to_string|" \
               r"encoder::Encoder::from_h|c_api::(decoder::Decoder|encoder::Encoder)::new"
        tp_ = Tracer(F, FALL, mode="int", inline=lambda p: F.private_helper(p, "c_api::", keep=r"c_api::(decoder::Decoder|encoder::Encoder)::\w+|c_api::c_to_string"))
        envp = {}
        for p_, nm_ in zip(b.params, names):
            tp_.bind(p_, var(nm_), envp)
        try:
            retp = tp_.eval(b.value, envp)
        except Unsupported as e:
            raise AnalysisError("%s: unreadable shape: %s" % (fn, e))
        steps = [e for e in tp_.events if re.fullmatch(FALL, e.callee)]
        tries = [e for e in tp_.events if e.callee == "<try>"]
        rets_ = [e for e in tp_.events if e.callee == "<return>"]
        wrapped = 0
        for e in steps:
            R = app(e.callee, *e.args)
            rr = repr(R)
            by_try = any(rr in repr(t_.args[0]) for t_ in tries)
            by_exit = any(isinstance(x.args[0], tuple) and x.args[0][:2] == ("ctor", "Err") and any(rr in repr(g) for g, pl in x.guards) for x in rets_)
            # the step's failure is the function's failure: the step (possibly under map / map_err) is the returned value itself, or
            # the function has an Err exit conditioned on the step's result.  Merely *containing* the step in an Ok value (r.ok(),
            # unwrap_or_default, ..) discards the failure.
            def carries(v_):
                for _ in range(4):
                    if isinstance(v_, Poly) and (v_ == R or repr(v_).replace("either_payload(", "payload0(") == rr):
                        return True     # (exits() names the payload of a matched result `either_payload`)
                    a_ = single_atom(v_) if isinstance(v_, Poly) else None
                    if a_ is not None and atom_fn(a_).startswith("std::result::Result::<") and atom_fn(a_).rsplit("::", 1)[-1] in ("map_err", "map", "and_then", "or_else"):
                        v_ = atom_args(a_)[0]
                        continue
                    return False
                return False
            in_result = carries(retp)
            if not in_result:
                try:
                    for conds_, val_ in exits(tp_, retp):
                        if carries(val_):
                            in_result = True        # the step's own result is what the function returns on that path
                        if isinstance(val_, tuple) and len(val_) == 3 and val_[:2] == ("ctor", "Err") and any(rr in c_ for c_, _p in conds_):
                            in_result = True
                except Exception:
                    pass
            # an Err arm of a match on R yielding Err(..) as the value of the function
            wrapped += bool(by_try or by_exit or in_result)
        unw = [c for c in walk(b.value) if c.get("k") == "mcall" and c["m"] in ("unwrap", "expect")]
        ck.inst("H3", "propagation:" + fn.rsplit("::", 2)[-2] + "::" + fn.rsplit("::", 1)[-1], wrapped == len(steps) and len(steps) >= 1 and not unw, b.span,
                "%d fallible steps, %d with their failure propagated (`?`, explicit Err arm, or part of the returned value), %d unwrap/expect" % (len(steps), wrapped, len(unw)))
    # the stored puncturer: none for the empty C string, Puncturer::new(parsed pattern) for any other - evaluated on the two cases
    from ..transformer import Grid
    from ..symx import NotEvaluable
    for fn, names in (("c_api::decoder::Decoder::new", ["alist", "implementation", "puncturing"]), ("c_api::encoder::Encoder::new", ["alist", "puncturing"])):
        b = F.body(fn)
        tq_ = Tracer(F, "NONE", mode="int", inline=lambda p: F.private_helper(p, "c_api::", keep=r"c_api::(decoder::Decoder|encoder::Encoder)::\w+|c_api::c_to_string"))
        envq = {}
        for p_, nm_ in zip(b.params, names):
            tq_.bind(p_, var(nm_), envq)
        try:
            rq = tq_.eval(b.value, envq)
        except Unsupported as e:
            raise AnalysisError("%s: unreadable shape: %s" % (fn, e))
        stv = rq[2][0] if isinstance(rq, tuple) and len(rq) == 3 and rq[:2] == ("ctor", "Ok") and rq[2] else None
        pv_ = stv[2].get("puncturer") if isinstance(stv, tuple) and stv and stv[0] == "struct" else None
        okq, whyq = pv_ is not None, "the constructed value has no `puncturer` field"
        if okq:
            try:
                got = {}
                for empty in (True, False):
                    g = Grid({"puncturing": "" if empty else "1,0", "alist": "ASTR", "implementation": "ISTR"},
                             {"is_empty": lambda x_: x_ == "", "len": lambda x_: len(x_),
                              "parse_puncturing_pattern": lambda x_: ("Ok", ("PAT", x_)), "new": lambda x_: ("PUNCT", x_)})
                    got[empty] = g.value(pv_)
                okq = got == {True: "None", False: ("Some", ("PUNCT", ("PAT", "1,0")))}
                whyq = "puncturer = None for the empty pattern string, Some(Puncturer::new(parse(pattern))) otherwise: %r" % (got,)
            except (NotEvaluable, TypeError) as ex:
                okq, whyq = False, "puncturer value not evaluable: %s" % ex
        ck.inst("H3", "puncturer-presence:" + fn.rsplit("::", 2)[-2], okq, b.span, whyq[:400])
    rev = {"assert:not": (1, "Puncturer::new asserts a non-empty pattern: parse_puncturing_pattern returns Ok only after pushing one element per "
                               "comma-separated item and str::split always yields at least one item")}
    NOI = r"(?!c_api::|simulation::puncturing::Puncturer::new|cli::ber::parse_puncturing_pattern).*"
    Audit(ck, F, "H3", "c_api::decoder::Decoder::new", ["alist", "implementation", "puncturing"], reviewed=rev, no_inline=NOI, contracts="NONE", entry_label="Decoder::new").run()
    Audit(ck, F, "H3", "c_api::encoder::Encoder::new", ["alist", "puncturing"], reviewed=dict(rev), no_inline=NOI, contracts="NONE", entry_label="Encoder::new").run()
    # H5: "null for matrices whose last columns are singular" rests on gauss_reduction reporting every singular matrix
    from ..report import RuleAlias
    from ..linalg_rules import row_operation_width
    row_operation_width(RuleAlias(ck, "H5"), F, "S5", "linalg::gauss_reduction")
    from . import c08
    c08.run(RuleAlias(ck, "H6", only=lambda r_, k_: r_ == "P1"), F, "quick")
    pattern_non_empty(ck, F, "H3")
    argument_fidelity(ck, F, exports)


FAITHFUL = re.compile(r"^(std::ffi::CStr::(from_ptr|to_bytes|to_str|to_string_lossy)|std::string::String::from_utf8_lossy|std::string::ToString::to_string|"
                      r"std::borrow::Cow::<'_, B>::into_owned|std::borrow::ToOwned::to_owned|std::clone::Clone::clone|std::string::String::as_str|"
                      r"std::ops::Deref::deref|std::convert::AsRef::as_ref|std::convert::Into::into|std::convert::From::from|std::borrow::Borrow::borrow)$")


def faithful_source(v, allow_file=False):
    """v is a chain of faithful conversions applied to a single variable -> (variable name, went through read_to_string)"""
    via_file = False
    while True:
        if not isinstance(v, Poly):
            return None, via_file
        a = single_atom(v)
        if a is None:
            return None, via_file
        if a[0] == "v":
            return a[1], via_file
        fn = atom_fn(a)
        args = atom_args(a)
        if len(args) != 1:
            return None, via_file
        if fn in ("try", "payload0", "either_payload") or fn == "std::fs::read_to_string":
            if not allow_file:
                return None, via_file
            via_file = via_file or fn.endswith("read_to_string")
        elif not FAITHFUL.match(fn):
            return None, via_file
        v = args[0]


def argument_fidelity(ck, F, exports):
    inl = lambda p: F.bodies.get(p) if p.startswith("c_api::") else None
    PARSERS = r"sparse::SparseMatrix::from_alist|core::str::<impl str>::parse|std::str::FromStr::from_str|cli::ber::parse_puncturing_pattern"
    n = 0
    for name, b in sorted(exports.items()):
        cstr = [p["ident"] for p, t in zip(b.params, b.d.get("sig_inputs", [])) if t.replace(" ", "") in ("*consti8", "*conststd::ffi::c_char")]
        if not cstr:
            continue
        n += 1
        t = Tracer(F, PARSERS, mode="int", inline=inl)
        env = {}
        for p in b.params:
            t.bind(p, var(p["ident"]), env)
        t.eval(b.value, env)
        fed = {}
        bad = []
        for e in t.events:
            if not re.fullmatch(PARSERS, e.callee):
                continue
            kind = "alist" if e.callee.endswith("from_alist") else "pattern" if e.callee.endswith("parse_puncturing_pattern") else "implementation"
            src, via_file = faithful_source(e.args[0], allow_file=(kind == "alist"))
            if src is None or src not in cstr:
                bad.append("%s parser is fed %r" % (kind, e.args[0]))
                continue
            fed.setdefault(src, []).append(kind)
            # the only condition under which a parser may be skipped is emptiness of the same faithful string (no puncturing)
            for g, pol in e.guards:
                ga = single_atom(g) if isinstance(g, Poly) else None
                inner = ga
                if ga is not None and atom_fn(ga) == "not":
                    inner = single_atom(atom_args(ga)[0])
                okg = inner is not None and atom_fn(inner) == "core::str::<impl str>::is_empty" and faithful_source(atom_args(inner)[0])[0] == src and kind == "pattern"
                if not okg and inner is not None and atom_fn(inner) == "matches" and kind == "pattern" and str(atom_args(inner)[1]) in ("''", '""', repr("")) \
                        and faithful_source(atom_args(inner)[0])[0] == src:
                    okg = True      # match pattern_text { "" => no puncturing, p => parse(p) }: emptiness of the same string
                if not okg and inner is not None and atom_fn(inner) == "matches":
                    # sequencing only: "an earlier fallible step succeeded" (match r { Ok(x) => next(x), Err(e) => .. })
                    subj, patk = atom_args(inner)
                    positive = pol if ga is inner else not pol
                    okg = isinstance(subj, Poly) and ((str(patk).startswith(("('Ok'", "('Some'")) and positive) or (str(patk).startswith("('Err'") and not positive))
                if not okg:
                    bad.append("%s parser runs under the condition %r" % (kind, g))
        missing = [c for c in cstr if c not in fed]
        ck.inst("H4", "ctor-args:" + name, not bad and not missing and all(len(set(v)) == 1 for v in fed.values()), b.span,
                "%s: %s%s%s" % (name, ", ".join("%s -> %s parser" % (k, v[0]) for k, v in sorted(fed.items())),
                                "; " + "; ".join(bad) if bad else "", "; never parsed: %s" % missing if missing else ""))
    ck.floor("H4", "constructors taking C strings", n, 4)


def pattern_non_empty(ck, F, rule):
    """parse_puncturing_pattern returns Ok(v) only with v non-empty: one unconditional push per item of `str::split`, which yields
    at least one item for every input (split_terminator / split_whitespace / filters can yield none)."""
    pb = F.body("cli::ber::parse_puncturing_pattern")
    tp = Tracer(F, r"std::vec::Vec::<T, A>::push|std::vec::Vec::<T>::push", mode="int")
    env = {}
    tp.bind(pb.params[0], var("s"), env)
    tp.ret_value = tp.eval(pb.value, env)
    pushes = [e for e in tp.events if e.callee.endswith("::push")]
    okp = False
    src = None
    SPLIT = "core::str::<impl str>::split"

    def split_source(d):
        """the str::split(s, ..) value an elems() description iterates, else None"""
        if isinstance(d, tuple) and d and d[0] == "elems":
            v = d[1][1] if isinstance(d[1], tuple) and len(d[1]) == 2 and d[1][0] == "P" else d[1]
            a_ = single_atom(v) if isinstance(v, Poly) else None
            if a_ and atom_fn(a_) == SPLIT and atom_args(a_)[0] == var("s"):
                return atom_fn(a_)
        return None
    if len(pushes) == 1 and len(pushes[0].loops) == 1 and not pushes[0].guards:
        lp = pushes[0].loops[0]
        d = lp[2] if lp[0] == "iter" else None
        src = split_source(d) or (atom_fn(single_atom(d[1])) if d and d[0] == "elems" and isinstance(d[1], Poly) and single_atom(d[1]) else None)
        okp = split_source(d) is not None
    elif not pushes:
        # value form: s.split(..).map(parse_one).collect::<Result<Vec<_>, _>>() - one element per item of the split, no filtering adapter
        rv = tp.ret_value
        tries = 0
        ra = single_atom(rv) if isinstance(rv, Poly) else None
        while ra is not None and atom_fn(ra) in ("try", "std::result::Result::<T, E>::map_err") and tries < 3:
            rv = atom_args(ra)[0]
            ra = single_atom(rv) if isinstance(rv, Poly) else None
            tries += 1
        if ra is not None and atom_fn(ra) == "std::iter::Iterator::collect" and isinstance(ra[2], tuple) and ra[2][0] == "iterdesc":
            d = ra[2][1]
            while d[0] == "map":
                d = d[1]
            src = split_source(d)
            okp = src is not None
    ck.inst(rule, "pattern-non-empty", okp, pb.span,
            "parse_puncturing_pattern pushes one element for every item of s.split(..) (never empty), unconditionally, so Ok(v) has v.len() >= 1 and "
            "Puncturer::new's assert!(!pattern.is_empty()) cannot fire: iterator source %s" % src)
